# bounded stand-in for C15 on the real algos: documented risk relations of the optimiser-backed weighters and the scalers
import json, warnings, random
import numpy as np, pandas as pd
warnings.filterwarnings("ignore")
import bt
from bt import algos as A
rs = np.random.RandomState(SEED)
fails, evals, distinct, samples = [], 0, set(), []
class Temp(dict):
    """target.temp: reading an entry the algo was supposed to leave, and did not, is a recorded failure (not a crash of this script)"""
    def __missing__(self, k):
        fails.append(dict(clause="algo-left-no-temp-entry", key=str(k)))
        return {} if k == "weights" else []
class T(object):
    def __init__(self, data, now, temp=None, children=None, value=1.0):
        self._u, self.now, self.temp, self.children, self.value = data, now, Temp(temp or {}), children or {}, value
        self.positions = pd.DataFrame()
    @property
    def universe(self): return self._u.loc[: self.now]
    def get_data(self, k): return self._extra[k]
class C(object):
    def __init__(self, w): self.weight = w
def bad(clause, **kw):
    fails.append(dict(clause=clause, **{k: (float(v) if isinstance(v, (np.floating, float)) else v) for k, v in kw.items()}))
for it in range(N):
    n_assets = int(rs.randint(2, 6)); n = 80
    names = ["s%d" % i for i in range(n_assets)]
    idx = pd.bdate_range("2020-01-01", periods=n)
    vols = rs.uniform(0.005, 0.04, size=n_assets)
    rets = rs.randn(n, n_assets) * vols
    data = pd.DataFrame(100 * np.exp(np.cumsum(rets, axis=0)), index=idx, columns=names)
    now = idx[-1]; lb = pd.DateOffset(days=60)
    distinct.add(n_assets)
    # inverse volatility: non-negative, sum to one, proportional to 1/vol over the window
    t = T(data, now, {"selected": list(names)}); A.WeighInvVol(lookback=lb)(t); w = pd.Series(t.temp["weights"]); evals += 1
    win = data.loc[now - lb: now].pct_change().dropna(); iv = 1 / win.std(); iv = iv / iv.sum()
    if (w < -1e-12).any() or abs(w.sum() - 1) > 1e-9 or not np.allclose(w[names].values, iv[names].values, rtol=1e-6): bad("inverse-vol", got=list(map(float, w.values)), want=list(map(float, iv.values)))
    # equal risk contribution: non-negative, sum to one, risk contributions (nearly) equal
    t = T(data, now, {"selected": list(names)}); A.WeighERC(lookback=lb, covar_method="standard", tolerance=1e-10, maximum_iterations=500)(t); w = pd.Series(t.temp["weights"])[names]; evals += 1
    cov = win.cov().values; rc = w.values * (cov @ w.values); rc = rc / rc.sum()
    if (w < -1e-12).any() or abs(w.sum() - 1) > 1e-6 or np.max(np.abs(rc - 1.0 / n_assets)) > 1e-3: bad("equal-risk-contribution", contributions=list(map(float, rc)))
    # ... and with a risk budget (risk_weights) the contributions follow the budget, whether or not starting weights are given as well
    budget = rs.dirichlet(np.ones(n_assets) * 3); budget = budget / budget.sum()
    for init in (None, np.ones(n_assets) / n_assets):       # (ffn wants arrays here)
        t = T(data, now, {"selected": list(names)}); A.WeighERC(lookback=lb, covar_method="standard", tolerance=1e-12, maximum_iterations=2000, risk_weights=np.asarray(budget, dtype=float), initial_weights=init)(t); wb = pd.Series(t.temp["weights"])[names]; evals += 1
        rcb = wb.values * (cov @ wb.values); rcb = rcb / rcb.sum()
        if (wb < -1e-12).any() or abs(wb.sum() - 1) > 1e-6 or np.max(np.abs(rcb - budget)) > 5e-3: bad("risk-contributions-follow-the-risk-budget", contributions=list(map(float, rcb)), budget=list(map(float, budget)), initial_weights_given=init is not None)
    # 0 / 1 asset shortcuts
    for W in (A.WeighInvVol, A.WeighERC, A.WeighMeanVar):
        t = T(data, now, {"selected": []}); W()(t); evals += 1
        if len(t.temp["weights"]) != 0: bad("empty-selection-gives-no-weights", algo=W.__name__)
        t = T(data, now, {"selected": [names[0]]}); W()(t)
        if dict(t.temp["weights"]) != {names[0]: 1.0}: bad("single-selection-gets-everything", algo=W.__name__)
    # random weights: inside bounds, requested sum
    lo, hi, tot = 0.0, float(rs.uniform(0.4, 1.0)), 1.0
    random.seed(int(rs.randint(1 << 30))); np.random.seed(int(rs.randint(1 << 30)))
    t = T(data, now, {"selected": list(names)}); A.WeighRandomly(bounds=(lo, hi), weight_sum=tot)(t); w = pd.Series(t.temp["weights"], dtype=float); evals += 1
    if len(w) and ((w < lo - 1e-12).any() or (w > hi + 1e-12).any() or abs(w.sum() - tot) > 1e-9): bad("random-weights-in-bounds-with-sum", weights=list(map(float, w.values)), hi=hi)
    if hi * n_assets < tot and len(w): bad("random-weights-infeasible-bounds-should-give-nothing")
    # one selected name: the same rule - inside the bounds with the requested sum, or nothing when the bounds exclude it
    for (lo1, hi1, tot1) in ((0.0, 0.4, 1.0), (0.0, 1.0, 1.0), (0.5, 1.0, 0.8)):
        t = T(data, now, {"selected": [names[0]]}); A.WeighRandomly(bounds=(lo1, hi1), weight_sum=tot1)(t); w1 = dict(t.temp["weights"]); evals += 1
        feasible = lo1 - 1e-12 <= tot1 <= hi1 + 1e-12
        if (feasible and (list(w1) != [names[0]] or abs(float(w1[names[0]]) - tot1) > 1e-9)) or (not feasible and w1): bad("random-weights-in-bounds-with-sum", single_name=True, bounds=[lo1, hi1], weight_sum=tot1, weights={k: float(v) for k, v in w1.items()})
    # limit weights: cap respected, total preserved, nothing when infeasible
    base = rs.dirichlet(np.ones(n_assets)); cap = float(rs.uniform(0.15, 0.9))
    t = T(data, now, {"weights": dict(zip(names, map(float, base)))}); A.LimitWeights(cap)(t); w = pd.Series(t.temp["weights"], dtype=float); evals += 1
    if cap < 1.0 / n_assets:
        if len(w): bad("limit-weights-infeasible-cap-gives-nothing", cap=cap)
    elif (w > cap + 1e-9).any() or abs(w.sum() - 1) > 1e-9: bad("limit-weights-cap-and-total", weights=list(map(float, w.values)), cap=cap)
    # limit deltas: change per key no larger than the limit, untouched when within
    cur = dict(zip(names, map(float, rs.dirichlet(np.ones(n_assets))))); tgtw = dict(zip(names[:-1], map(float, rs.dirichlet(np.ones(n_assets - 1))))); lim = float(rs.uniform(0.02, 0.3))
    t = T(data, now, {"weights": dict(tgtw)}, children={k: C(v) for k, v in cur.items()}); A.LimitDeltas(lim)(t); evals += 1
    for k in names:
        new = t.temp["weights"].get(k, 0.0); d0 = tgtw.get(k, 0.0) - cur[k]
        if abs(new - cur[k]) > lim + 1e-12 and abs(d0) > lim: bad("limit-deltas-cap", key=k, new=new, cur=cur[k], limit=lim)
        if abs(d0) <= lim and abs(new - tgtw.get(k, 0.0)) > 1e-12: bad("limit-deltas-untouched-within", key=k)
    # dated targets with a missing entry on the date: the weights are that date's non-missing targets (not an earlier complete row)
    wt_ = pd.DataFrame(rs.dirichlet(np.ones(n_assets), size=n), index=idx, columns=names); wt_.loc[now, names[0]] = np.nan
    t = T(data, now, {}); t._extra = {"wt": wt_}; A.WeighTarget("wt")(t); evals += 1
    want_wt = {k: float(v) for k, v in wt_.loc[now].dropna().items()}
    got_wt = {k: float(v) for k, v in dict(t.temp.get("weights", {})).items()}
    if set(got_wt) != set(want_wt) or any(abs(got_wt[k] - want_wt[k]) > 1e-12 for k in want_wt): bad("dated-targets-are-the-non-missing-targets-of-the-date", got=got_wt, want=want_wt)
    # volatility target: ex-ante annualised volatility of the scaled weights equals the target
    w0 = dict(zip(names, map(float, rs.dirichlet(np.ones(n_assets))))); tv = float(rs.uniform(0.05, 0.3))
    w0_shuffled = {k: w0[k] for k in [names[j] for j in rs.permutation(n_assets)]}        # the weights need not list the tickers in the order of the price columns
    t = T(data, now, {"weights": w0_shuffled}); A.TargetVol(tv, lookback=lb)(t); w = pd.Series(t.temp["weights"])[names]; evals += 1
    cv = bt.ffn.to_returns(data.loc[now - lb: now]).cov().values
    vol = float(np.sqrt(w.values @ cv @ w.values * 252))
    if abs(vol - tv) > 1e-9: bad("target-vol", got=vol, want=tv)
    # ... on every call, also when the names change between calls (one algo instance lives for the whole backtest)
    tvol = A.TargetVol(tv, lookback=lb)
    for sub in (names[:2], names, names[-2:]):
        ws = dict(zip(sub, map(float, rs.dirichlet(np.ones(len(sub))))))
        t = T(data, now, {"weights": dict(ws)}); tvol(t); w = pd.Series(t.temp["weights"])[sub]; evals += 1
        cvs = bt.ffn.to_returns(data.loc[now - lb: now, sub]).cov().values
        vol = float(np.sqrt(w.values @ cvs @ w.values * 252))
        if abs(vol - tv) > 1e-9: bad("target-vol-after-selection-change", got=vol, want=tv, names=list(sub))
    # ... and with the shrunk covariance estimator the algo offers
    try:
        import sklearn.covariance
        t = T(data, now, {"weights": dict(w0)}); A.TargetVol(tv, lookback=lb, covar_method="ledoit-wolf")(t); w = pd.Series(t.temp["weights"])[names]; evals += 1
        lw = sklearn.covariance.ledoit_wolf(bt.ffn.to_returns(data.loc[now - lb: now]).dropna())[0]
        vol = float(np.sqrt(w.values @ lw @ w.values * 252))
        if abs(vol - tv) > 1e-9: bad("target-vol-ledoit-wolf", got=vol, want=tv)
    except Exception as e:
        bad("target-vol-ledoit-wolf-raised", error=repr(e)[:200])
    # PTE trigger: True exactly when tracking-error volatility of current vs target exceeds the cap
    tw_ = pd.DataFrame([list(map(float, rs.dirichlet(np.ones(n_assets))))] * n, index=idx, columns=names)
    posw = rs.dirichlet(np.ones(n_assets)) * float(rs.choice([1.0, 0.6, 1.3]))        # fully invested, holding 40% cash, or levered: weights are position value over the strategy's value
    t = T(data, now, {}, value=1.0); t.positions = pd.DataFrame([posw / data.loc[now].values], index=[now], columns=names)
    diff = posw - tw_.loc[now].values
    pte = float(np.sqrt(diff @ cv @ diff * 252))
    capv = float(rs.uniform(0.001, 0.08))
    for capv in [capv] + [pte * f for f in (0.3, 0.6, 0.9, 1.1, 1.7, 2.5, 4.5)]:     # caps on both sides of the tracking error, near and far
        got = A.PTE_Rebalance(capv, tw_, lookback=lb)(t); evals += 1
        if bool(got) != (pte > capv): bad("pte-trigger", got=bool(got), pte=pte, cap=capv)
    # ... also when the held names and the target names differ (a target not bought yet, a holding the target frame lacks)
    if n_assets >= 3:
        held = names[:-1]; tgt_names = names[1:]
        tw2 = pd.DataFrame([list(map(float, rs.dirichlet(np.ones(len(tgt_names)))))] * n, index=idx, columns=tgt_names)
        hw = rs.dirichlet(np.ones(len(held)))
        t = T(data, now, {}, value=1.0); t.positions = pd.DataFrame([hw / data.loc[now, held].values], index=[now], columns=held)
        cur = pd.Series(hw, index=held).reindex(names).fillna(0.0).values; tg = tw2.loc[now].reindex(names).fillna(0.0).values
        diff = cur - tg
        pte = float(np.sqrt(diff @ cv @ diff * 252))
        for cap2 in [pte * f for f in (0.3, 0.6, 0.9, 1.1, 1.7, 2.5)]:      # caps on both sides of this tracking error
            got = A.PTE_Rebalance(cap2, tw2, lookback=lb)(t); evals += 1
            if bool(got) != (pte > cap2): bad("pte-trigger-on-differing-name-sets", got=bool(got), pte=pte, cap=cap2)
    if it < 1: samples.append(dict(assets=n_assets, target_vol=tv, achieved=vol))
print("JSON:" + json.dumps(dict(evaluations=evals, distinct=len(distinct), failures=fails[:5], samples=samples,
      rule="random return histories (2-5 assets, 80 dates) through the real WeighInvVol / WeighERC / WeighMeanVar shortcuts / WeighRandomly / LimitWeights / LimitDeltas / TargetVol / PTE_Rebalance against their documented relations recomputed with numpy",
      bound="%d random universes" % N)))
