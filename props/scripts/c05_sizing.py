# bounded stand-in for C05/C10: the trade-sizing search of SecurityBase.allocate on ordinary numbers - no guard exception, budget respected
import json, warnings, math
import numpy as np, pandas as pd
warnings.filterwarnings("ignore")
import bt
from bt.core import Security, Strategy
rs = np.random.RandomState(SEED)
fails, evals, distinct, samples = [], 0, set(), []
def bad(clause, **kw):
    if len(fails) < PARAMS.get("maxfail", 8): fails.append(dict(clause=clause, **{k: (float(v) if isinstance(v, (np.floating, float)) else v) for k, v in kw.items()}))
FEES = [None, lambda q, p: abs(q) * 0.001, lambda q, p: abs(q) * p * 0.0005, lambda q, p: max(1.0, abs(q) * 0.002) if q != 0 else 0.0,
        lambda q, p: abs(q) * 1.0, lambda q, p: abs(q) * p * 0.1]      # the last two are large enough to move the first guess of the search by whole units
idx = pd.date_range("2021-01-04", periods=2)
for it in range(N):
    price = float(np.round(rs.uniform(0.5, 400), int(rs.randint(0, 5))))
    mult = float(rs.choice([1.0, 1.0, 0.5, 10.0, 100.0]))
    spread = float(rs.choice([0.0, 0.0, rs.uniform(0.01, 0.5)])) * min(1.0, price / 50)
    fk = int(rs.randint(len(FEES))); intpos = bool(rs.randint(2))
    if fk == 4 and price * mult < 2.5: price = float(np.round(price + 5.0 / mult, 2))     # the property quantifies over commissions smaller than the unit price
    pos0 = float(rs.randint(-3000, 3000)) if rs.rand() < 0.7 else 0.0
    data = pd.DataFrame({"a": [price, price]}, index=idx)
    s = Strategy("s", [], children=[Security("a", multiplier=mult)])
    kw = {"bidoffer": pd.DataFrame({"a": [spread, spread]}, index=idx)} if spread > 0 else {}
    s.setup(data, **kw); s.use_integer_positions(intpos)
    if FEES[fk] is not None: s.set_commissions(FEES[fk])
    s.adjust(1e9); s.update(idx[0])
    a = s["a"]
    if pos0 != 0.0: a.transact(pos0); s.update(idx[0])
    unit = price * mult
    mode = rs.rand()
    if mode < 0.06:
        # very many units (a cheap stock and a large book): size-proportional costs leave the first step of the search thousands of units short
        amount = float(rs.choice([1, 1, -1]) * rs.uniform(1e5, 5e7) * unit)
    elif mode < 0.45:
        amount = float(rs.choice([1, -1]) * rs.uniform(0.2, 3000) * unit)
    elif mode < 0.75:
        # less than (about) one unit: nothing, or exactly one unit, is affordable
        amount = float(rs.choice([1, 1, -1]) * rs.uniform(0.0, 1.2) * unit * rs.choice([1.0, 0.01]))
    elif mode < 0.83 and intpos:
        # boundary sizes: the amount is exactly the full cost of a whole quantity, which is then affordable and must not be undercut
        q_exact = float(rs.randint(1, 3000))
        amount = float(a.outlay(q_exact)[0])
    else:
        # resonant sizes: the full cost of some whole quantity exceeds the amount by a whole number of units plus a hair, so the
        # search step (shortfall / unit price) lands next to a whole number
        q_res = float(rs.randint(1, 3000) * rs.choice([1, -1]))
        f_res = float(a.outlay(q_res)[0])
        amount = f_res - float(rs.randint(1, 3)) * unit * rs.choice([1, -1]) - unit * 10.0 ** -rs.randint(3, 10) * rs.choice([1, -1])
    if mode < 0.06: s.adjust(100.0 * abs(amount)); s.update(idx[0])        # a book that can pay for it (otherwise the costs alone bankrupt the strategy)
    cap0, p0 = s.capital, a.position
    evals += 1; distinct.add((fk, intpos, mult, spread > 0, pos0 > 0, pos0 < 0, amount > 0))
    try:
        a.allocate(amount)
    except Exception as e:
        bad("sizing-search-raised-on-ordinary-numbers", error=repr(e)[:120], price=price, multiplier=mult, spread=spread, fee=fk, integer=intpos, position=p0, amount=amount); continue
    s.update(idx[0])
    if PARAMS.get("only_raises"): continue      # C10 asks only whether a well-formed allocation completes; the budget clauses are C05's
    q = a.position - p0
    spent = cap0 - s.capital        # outlay + fee actually paid
    true_closeout = abs(amount + p0 * unit) <= 1e-13 * max(1.0, abs(amount))    # allocating exactly minus the current value (up to the rounding of the product); anything farther away is an ordinary allocation
    if true_closeout:
        if p0 != 0 and a.position != 0: bad("closing-amount-does-not-close-the-position", position=p0, left=a.position, amount=amount)
        continue
    tol = 1e-6 * max(1.0, abs(amount))
    if intpos:
        full = lambda k: float(a.outlay(k)[0]) if k != 0 else 0.0
        if 0.75 <= mode < 0.83 and q < q_exact: bad("whole-unit-trade-is-not-the-largest-that-fits", boundary="the amount is exactly the full cost of %r units" % q_exact, q=q, amount=amount, spent=spent, price=price, multiplier=mult, spread=spread, fee=fk, position=p0)
        if q == 0:
            # doing nothing is right only when it is the largest whole quantity whose cost stays within the amount
            if amount < -tol:
                # recorded finding: a sub-unit negative amount on a flat or short position is rounded towards zero
                kw_ = dict(finding="C05-sub-unit-negative-amount-raises-nothing") if (-amount < price * mult and p0 <= 0) else {}
                bad("negative-amount-raises-no-cash", amount=amount, price=price, multiplier=mult, position=p0, spread=spread, fee=fk, **kw_)
            elif full(1.0) <= amount - tol and not (price * mult > abs(amount)): bad("a-unit-was-affordable-but-nothing-was-bought", amount=amount, price=price, multiplier=mult, position=p0, spread=spread, fee=fk)
            continue
        if spent > amount + tol: bad("whole-unit-trade-exceeds-the-budget", spent=spent, amount=amount, q=q, price=price, multiplier=mult, spread=spread, fee=fk, position=p0)
        elif full(q + 1.0) <= amount - tol and (q + 1.0) != 0: bad("whole-unit-trade-is-not-the-largest-that-fits", q=q, amount=amount, spent=spent, one_more=full(q + 1.0), price=price, multiplier=mult, spread=spread, fee=fk, position=p0)
    else:
        if q == 0: continue
        if abs(spent - amount) > tol: bad("fractional-trade-does-not-spend-the-amount", spent=spent, amount=amount, q=q)
    if it < 2: samples.append(dict(price=price, multiplier=mult, spread=spread, fee=fk, integer=intpos, position=p0, amount=amount, traded=q, spent=spent))
print("JSON:" + json.dumps(dict(evaluations=evals, distinct=len(distinct), failures=sorted(fails, key=lambda f: "finding" in f)[:PARAMS.get("maxfail", 5)], samples=samples,
      rule="random price (0-4 decimals), multiplier, spread, 6 fee shapes (none, per unit small/large, proportional small/large, minimum ticket), prior long/short/flat position, signed amount (ordinary sizes, up to 5e7 units, below one unit, exactly the full cost of a whole quantity, and sizes whose costs add up to about one more unit), whole or fractional units; allocate must not raise and must respect the budget; distinct = distinct (fee, mode, multiplier, spread?, position sign, amount sign)",
      bound="%d random allocations on the direct API" % N)))
