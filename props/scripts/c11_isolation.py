# bounded stand-in for C11: isolation / repeatability on real runs (PARAMS['mode']: 'hashseed' prints universe column order)
import json, copy, sys, os
import numpy as np, pandas as pd
import bt
rs = np.random.RandomState(SEED)
fails, evals, samples = [], 0, []
names = ["zeta", "alpha", "mid", "b2", "a1", "x9", "k", "omega"]
idx = pd.date_range("2020-01-01", periods=12)
data = pd.DataFrame(100 + rs.randn(12, len(names)).cumsum(axis=0), index=idx, columns=names)
class Budget(bt.Algo):
    """a stateful algo that keeps its state in a Series attribute and writes into it in place: lets the stack through on the first two dates it sees only"""
    def __init__(self):
        super().__init__(); self.seen = pd.Series(False, index=idx)
    def __call__(self, target):
        if target.now not in self.seen.index: return False
        ok = int(self.seen.sum()) < 2
        self.seen.loc[target.now] = True
        target.perm["entered"] = target.perm.get("entered", 0) + 1          # per-strategy state kept by an algo
        return ok
def mk():
    return bt.Strategy("s", [bt.algos.RunWeekly(), Budget(), bt.algos.SelectAll(), bt.algos.WeighEqually(), bt.algos.Rebalance()], children=["alpha", "zeta", "k", "x9", "mid"])
def mk_nested():
    st = lambda: [bt.algos.RunWeekly(), bt.algos.SelectAll(), bt.algos.WeighEqually(), bt.algos.Rebalance()]
    return bt.Strategy("top", st(), children=[bt.Strategy(n, st(), children=[a, b]) for n, a, b in (("omega_s", "zeta", "k"), ("alpha_s", "alpha", "x9"), ("mid_s", "mid", "b2"), ("q_s", "a1", "omega"))] + ["k"])
if PARAMS.get("mode") == "hashseed":
    t = bt.Backtest(mk(), data); t.run()
    t2 = bt.Backtest(mk_nested(), data); t2.run()
    print("JSON:" + json.dumps(dict(evaluations=2, distinct=2, failures=[], columns=list(t.strategy.universe.columns) + ["|"] + list(t2.strategy.universe.columns) + ["|"] + [m.full_name for m in t2.strategy.members],
                                    final=[float(t.strategy.value), float(t2.strategy.value)], hashseed=os.environ.get("PYTHONHASHSEED"))))
    sys.exit(0)
fee = lambda q, p: 1.0 + abs(q) * 0.01
for it in range(N):
    s = mk()
    d0 = data.copy(deep=True)
    sig = pd.DataFrame(rs.rand(12, len(names)) > 0.5, index=idx, columns=names)
    extra = {"signal": sig, "bidoffer": pd.DataFrame(0.01, index=idx, columns=names), "note": "not a frame", "level": pd.Series(np.arange(12.0), index=idx, name="level")}
    lvl0 = extra["level"].copy(deep=True)
    extra_ids = {k: id(v) for k, v in extra.items()}; sig0 = sig.copy(deep=True)
    cf0, ip0 = s.commission_fn, s.integer_positions
    # a backtest with its own cost model and data, then plain ones from the same template
    t0 = bt.Backtest(s, data, initial_capital=10000.0, commissions=fee, integer_positions=False, additional_data=extra)
    t1 = bt.Backtest(s, data, initial_capital=10000.0); t2 = bt.Backtest(s, data, initial_capital=10000.0)
    t0.run()
    if s.commission_fn is not cf0 or s.integer_positions is not ip0: fails.append(dict(clause="template-settings-changed-by-a-backtest"))
    if {k: id(v) for k, v in extra.items()} != extra_ids or not extra["signal"].equals(sig0) or len(extra["signal"]) != 12 or len(extra["level"]) != 12 or not extra["level"].equals(lvl0): fails.append(dict(clause="additional-data-dict-mutated"))
    order = rs.rand() < 0.5
    (t2 if order else t1).run(); (t1 if order else t2).run()
    evals += 1
    if not data.equals(d0): fails.append(dict(clause="input-frame-mutated"))
    if s.children and any(getattr(c, "_position", 0) != 0 for c in s.children.values()): fails.append(dict(clause="template-mutated"))
    if not t1.strategy.prices.equals(t2.strategy.prices): fails.append(dict(clause="same-template-backtests-differ"))
    if s.perm: fails.append(dict(clause="template-mutated", what="perm of the template was written by a backtest", perm=repr(s.perm)[:100]))
    if t1.strategy.perm.get("entered") != t2.strategy.perm.get("entered") or t1.strategy.perm is t2.strategy.perm: fails.append(dict(clause="same-template-backtests-differ", what="perm shared or counted across backtests", a=repr(t1.strategy.perm)[:80], b=repr(t2.strategy.perm)[:80]))
    if bool(s.stack.algos[1].seen.any()): fails.append(dict(clause="template-mutated", what="a frame held by an algo of the template was written by a backtest"))
    if float(t1.strategy.fees.abs().sum()) != 0.0: fails.append(dict(clause="backtest-inherits-cost-model-of-a-sibling-backtest", fees=float(t1.strategy.fees.sum())))
    if {k: id(v) for k, v in extra.items()} != extra_ids: fails.append(dict(clause="additional-data-dict-mutated-by-run"))
    p = t1.strategy.prices.copy(); t1.run()
    if not p.equals(t1.strategy.prices): fails.append(dict(clause="rerun-changed-results"))
    if it < 2:
        # the helper that benchmarks against random portfolios builds its backtests from the caller's template as well
        import contextlib, io
        rtpl = bt.Strategy("rnd", [bt.algos.RunMonthly(), bt.algos.SelectRandomly(2), bt.algos.WeighRandomly(), bt.algos.Rebalance()])
        with contextlib.redirect_stderr(io.StringIO()): res_ = bt.backtest.benchmark_random(bt.Backtest(mk(), data), rtpl, nsim=2)
        evals += 1
        if rtpl.name != "rnd": fails.append(dict(clause="benchmark_random-renamed-the-caller's-template", name=rtpl.name))
    if it < 2:
        # a template used as a dict child under aliases keeps its own name
        tpl = mk(); comp = bt.Strategy("comp", [bt.algos.RunWeekly(), bt.algos.SelectAll(), bt.algos.WeighEqually(), bt.algos.Rebalance()], children={"sleeve_1": tpl, "sleeve_2": tpl}); evals += 1
        if tpl.name != "s" or sorted(comp.children) != ["sleeve_1", "sleeve_2"]: fails.append(dict(clause="template-mutated", what="a node given as a dict child was renamed", name=tpl.name))
        # the frame a backtest runs on is the frame it was given, as it is at construction (also for the same object edited in place in between)
        dd = data.copy(deep=True); ta = bt.Backtest(mk(), dd); dd.iloc[:, 0] = dd.iloc[:, 0] * 2.0; tb = bt.Backtest(mk(), dd); evals += 1
        if not np.allclose(tb.data.iloc[1:, 0].to_numpy(), dd.iloc[:, 0].to_numpy()): fails.append(dict(clause="backtest-does-not-run-on-the-frame-it-was-given"))
    if it < 1: samples.append(dict(final_value=float(t1.strategy.value)))
print("JSON:" + json.dumps(dict(evaluations=evals, distinct=evals, failures=fails[:3], samples=samples, rule="pairs of backtests from one template run in random order; input frame / template compared before and after; re-run compared", bound="%d template pairs, 12 dates, 8 tickers" % N)))
