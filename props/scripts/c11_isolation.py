# bounded stand-in for C11: isolation / repeatability on real runs (PARAMS['mode']: 'hashseed' prints universe column order)
import json, copy, sys, os
import numpy as np, pandas as pd
import bt
rs = np.random.RandomState(SEED)
fails, evals, samples = [], 0, []
names = ["zeta", "alpha", "mid", "b2", "a1", "x9", "k", "omega"]
idx = pd.date_range("2020-01-01", periods=12)
data = pd.DataFrame(100 + rs.randn(12, len(names)).cumsum(axis=0), index=idx, columns=names)
def mk():
    return bt.Strategy("s", [bt.algos.RunWeekly(), bt.algos.SelectAll(), bt.algos.WeighEqually(), bt.algos.Rebalance()], children=["alpha", "zeta", "k", "x9", "mid"])
if PARAMS.get("mode") == "hashseed":
    t = bt.Backtest(mk(), data); t.run()
    print("JSON:" + json.dumps(dict(evaluations=1, distinct=1, failures=[], columns=list(t.strategy.universe.columns), final=float(t.strategy.value), hashseed=os.environ.get("PYTHONHASHSEED"))))
    sys.exit(0)
for it in range(N):
    s = mk()
    d0 = data.copy(deep=True)
    t1 = bt.Backtest(s, data, initial_capital=10000.0); t2 = bt.Backtest(s, data, initial_capital=10000.0)
    order = rs.rand() < 0.5
    (t2 if order else t1).run(); (t1 if order else t2).run()
    evals += 1
    if not data.equals(d0): fails.append(dict(clause="input-frame-mutated"))
    if s.children and any(getattr(c, "_position", 0) != 0 for c in s.children.values()): fails.append(dict(clause="template-mutated"))
    if not t1.strategy.prices.equals(t2.strategy.prices): fails.append(dict(clause="same-template-backtests-differ"))
    p = t1.strategy.prices.copy(); t1.run()
    if not p.equals(t1.strategy.prices): fails.append(dict(clause="rerun-changed-results"))
    if it < 1: samples.append(dict(final_value=float(t1.strategy.value)))
print("JSON:" + json.dumps(dict(evaluations=evals, distinct=evals, failures=fails[:3], samples=samples, rule="pairs of backtests from one template run in random order; input frame / template compared before and after; re-run compared", bound="%d template pairs, 12 dates, 8 tickers" % N)))
