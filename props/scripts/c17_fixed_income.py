# bounded stand-in for C17 on real runs: notional per security type, coupon / holding-cost accrual and next-date payment,
# additive index, notional weights, SetNotional scaling (including a zero notional)
import json
import numpy as np, pandas as pd
import bt
from bt import algos as A
from bt.core import Security, FixedIncomeSecurity, CouponPayingSecurity, HedgeSecurity, CouponPayingHedgeSecurity, FixedIncomeStrategy
rs = np.random.RandomState(SEED)
fails, evals, distinct, samples = [], 0, set(), []
def bad(clause, **kw): fails.append(dict(clause=clause, **{k: (float(v) if isinstance(v, (np.floating, float)) else v) for k, v in kw.items()}))
for it in range(N):
    n = 8; idx = pd.bdate_range("2020-01-01", periods=n)
    names = ["eq", "fi", "cp", "hg", "ch"]
    data = pd.DataFrame(100 + rs.randn(n, 5).cumsum(axis=0), index=idx, columns=names)
    coup = pd.DataFrame(rs.choice([0.0, 0.0, 0.05, 0.1], size=(n, 5)), index=idx, columns=names)
    which = rs.randint(4)   # which holding-cost tables are supplied
    cl = pd.DataFrame(rs.uniform(0.0, 0.02, size=(n, 5)), index=idx, columns=names)
    cs = pd.DataFrame(rs.uniform(0.0, 0.03, size=(n, 5)), index=idx, columns=names)
    kw = {"coupons": coup}
    if which in (1, 3): kw["cost_long"] = cl
    if which in (2, 3): kw["cost_short"] = cs[["cp", "ch"]] if which == 2 else cs
    kids = [Security("eq"), FixedIncomeSecurity("fi"), CouponPayingSecurity("cp"), HedgeSecurity("hg"), CouponPayingHedgeSecurity("ch")]
    s = FixedIncomeStrategy("s", [], children=kids)
    s.setup(data, **kw); s.update(idx[0])
    pos = {k: float(rs.choice([-1, 1]) * rs.randint(1, 20)) for k in names}
    for k, q in pos.items(): s.transact(q, k)
    s.update(idx[0])
    distinct.add(which)
    prev_cash = None
    for d in range(1, n):
        cash_before = float(s.capital)
        accr = {k: float(s.children[k].coupon - s.children[k].holding_cost) for k in ("cp", "ch")}
        lastp, lastv, lastn = float(s.price), float(s.value), float(s.notional_value)
        s.update(idx[d]); evals += 1
        # notional per type
        want_n = {"eq": float(s.children["eq"].value), "fi": pos["fi"], "cp": pos["cp"], "hg": 0.0, "ch": 0.0}
        for k, wv in want_n.items():
            if abs(float(s.children[k].notional_value) - wv) > 1e-9: bad("notional-per-security-type", node=k, got=s.children[k].notional_value, want=wv)
        if abs(float(s.notional_value) - sum(abs(v) for v in want_n.values())) > 1e-9: bad("strategy-notional-is-sum-of-absolute-child-notionals")
        # accrual of the earlier date is paid into the parent's cash on this date
        if abs(float(s.capital) - (cash_before + accr["cp"] + accr["ch"])) > 1e-9: bad("accrual-paid-on-next-date", got=s.capital, want=cash_before + accr["cp"] + accr["ch"])
        # today's accrual: position x coupon less holding cost on |position| by side
        for k in ("cp", "ch"):
            c = float(coup.loc[idx[d], k]) * pos[k]
            if pos[k] > 0: hc = pos[k] * float(cl.loc[idx[d], k]) if "cost_long" in kw else 0.0
            else: hc = -pos[k] * float(cs.loc[idx[d], k]) if "cost_short" in kw else 0.0
            if abs(float(s.children[k].coupon) - c) > 1e-9: bad("coupon-is-position-x-coupon", node=k)
            if abs(float(s.children[k].holding_cost) - hc) > 1e-9: bad("holding-cost-by-side-on-absolute-position", node=k, got=s.children[k].holding_cost, want=hc, tables=int(which))
        # additive index
        want_p = lastp + 100.0 * (float(s.value) - lastv) / lastn
        if abs(float(s.price) - want_p) > 1e-9: bad("additive-index", got=s.price, want=want_p)
        # weights are fractions of notional
        for k in names:
            if abs(float(s.children[k].weight) - float(s.children[k].notional_value) / float(s.notional_value)) > 1e-9: bad("weight-is-notional-fraction", node=k)
    # recorded carry histories: the row of each date holds that date's accrual, and nothing is recorded where nothing accrued
    for k in ("cp", "ch"):
        node = s.children[k]
        inc, hcs = node.data["coupon"].to_numpy(dtype=float), node.data["holding_cost"].to_numpy(dtype=float)
        for d in range(n):
            c = float(coup.loc[idx[d], k]) * pos[k]
            if abs(inc[d] - c) > 1e-9: bad("coupon-history-row-is-that-date's-accrual", node=k, row=d, got=float(inc[d]), want=c)
    fresh = FixedIncomeStrategy("f2", [], children=[CouponPayingSecurity("cp")]); fresh.setup(data[["cp"]], coupons=coup[["cp"]]); fresh.update(idx[0]); fresh.update(idx[1])
    for col in ("coupon", "holding_cost"):
        v = fresh.children["cp"].data[col].to_numpy(dtype=float)
        if float(np.abs(v).sum()) != 0.0: bad("no-carry-recorded-for-a-security-that-never-held-a-position", column=col, values=list(map(float, v[:4])))
    evals += 1
    # Rebalance scaled to the notional set by SetNotional, including a zero notional (go flat)
    nv = pd.Series([1e6, 1e6, 2e6, 0.0, 5e5, 5e5, 5e5, 5e5][:n], index=idx)
    if rs.rand() < 0.5:      # a schedule kept on its own calendar (longer history, weekend rows): it is read by date
        extra_idx = pd.date_range(idx[0] - pd.Timedelta(days=5), idx[-1], freq="D")
        nv = pd.Series(7e5, index=extra_idx).where(~extra_idx.isin(idx), nv.reindex(extra_idx))
    st2 = FixedIncomeStrategy("r", [A.WeighSpecified(cp=-0.4, fi=0.6), A.SetNotional("nv"), A.Rebalance()], children=[(FixedIncomeSecurity("fi") if rs.rand() < 0.5 else CouponPayingSecurity("fi")), CouponPayingSecurity("cp")])      # a plain fixed-income security is sized by par as well
    t = bt.Backtest(st2, data[["fi", "cp"]], additional_data={"coupons": coup[["fi", "cp"]], "nv": nv}, integer_positions=False); t.run(); evals += 1
    for d in range(n):
        tot = float(nv.loc[idx[d]]); got = t.strategy.notional_values.loc[idx[d]]
        if abs(float(got) - tot) > 1e-6: bad("rebalance-scales-to-SetNotional", date=str(idx[d].date()), got=got, want=tot)
        for nm_, w_ in (("fi", 0.6), ("cp", -0.4)):      # each target is its fraction of the notional, in par
            pos_ = float(t.strategy[nm_].positions.loc[idx[d]])
            if abs(pos_ - w_ * tot) > 1e-6 * max(1.0, abs(tot)): bad("rebalance-target-is-a-fraction-of-notional", security=nm_, kind=type(t.strategy[nm_]).__name__, date=str(idx[d].date()), position=pos_, want=w_ * tot); break
    # renormalised result: the index moves additively by PAR x (change in value net of THAT date's flows) / normalising value, with
    # capital flows on the first date (initial capital) and during the run
    from bt.backtest import RenormalizedFixedIncomeResult
    cap0 = float(rs.choice([0.0, 250000.0, 1e6]))
    fl = pd.DataFrame({"r2": np.where(rs.rand(n) < 0.3, rs.choice([-5e4, 1e5, 2.5e5], size=n), 0.0)}, index=idx)
    class Flows(bt.Algo):
        def __call__(self, target):
            a = float(fl["r2"].loc[target.now]) if target.now in fl.index else 0.0
            if a != 0.0: target.adjust(a)
            return True
    st3 = FixedIncomeStrategy("r2", [Flows(), A.WeighSpecified(cp=-0.4, fi=0.6), A.SetNotional("nv3"), A.Rebalance()], children=[CouponPayingSecurity("fi"), CouponPayingSecurity("cp")])
    nv3 = pd.Series(1e6, index=idx)
    t3 = bt.Backtest(st3, data[["fi", "cp"]], additional_data={"coupons": coup[["fi", "cp"]], "nv3": nv3}, integer_positions=False, initial_capital=cap0); t3.run(); evals += 1
    vnorm = float(rs.choice([1e6, 2e6]))
    rn = RenormalizedFixedIncomeResult(vnorm, t3).prices["r2"]
    vals, flows = t3.strategy.values, t3.strategy.flows
    ref = [bt.core.PAR]
    for d in range(1, len(vals)):
        ref.append(ref[-1] + bt.core.PAR * ((float(vals.iloc[d]) - float(vals.iloc[d - 1])) - float(flows.iloc[d])) / vnorm)
    for d in range(len(vals)):
        if abs(float(rn.iloc[d]) - ref[d]) > 1e-6 * max(1.0, abs(ref[d])):
            bad("renormalised-index-moves-by-change-in-value-net-of-the-date's-flows", date=str(vals.index[d].date()), got=float(rn.iloc[d]), want=ref[d], initial_capital=cap0, flows=[float(x) for x in flows.values]); break
    # a fixed-income parent closes a fixed-income sub-strategy: its children are liquidated, its notional goes to zero, nothing raises
    sub_ = FixedIncomeStrategy("sub", [], children=[FixedIncomeSecurity("fi")]); top_ = FixedIncomeStrategy("top", [], children=[sub_, CouponPayingSecurity("cp")])
    top_.setup(data[["fi", "cp"]], coupons=coup[["fi", "cp"]]); top_.update(idx[0]); top_.update(idx[1])
    top_["sub"].transact(float(rs.randint(10, 200)), "fi"); top_.transact(50.0, "cp"); top_.update(idx[1]); evals += 1
    try:
        top_.close("sub"); top_.update(idx[1])
        if abs(float(top_["sub"].notional_value)) > 1e-9 or abs(float(top_["sub"]["fi"].position)) > 1e-9 or abs(float(top_.notional_value) - 50.0) > 1e-9:
            bad("closing-a-fixed-income-sub-strategy-liquidates-it", sub_notional=float(top_["sub"].notional_value), position=float(top_["sub"]["fi"].position), parent_notional=float(top_.notional_value))
    except Exception as e:
        bad("closing-a-fixed-income-sub-strategy-liquidates-it", raised=repr(e)[:160])
    # ... and flattens a whole tree holding one: every security of either level ends flat, nothing raises
    sub2 = FixedIncomeStrategy("sub", [], children=[FixedIncomeSecurity("fi")]); top2 = FixedIncomeStrategy("top", [], children=[sub2, CouponPayingSecurity("cp")])
    top2.setup(data[["fi", "cp"]], coupons=coup[["fi", "cp"]]); top2.update(idx[0]); top2.update(idx[1])
    top2["sub"].transact(float(rs.randint(10, 200)), "fi"); top2.transact(float(rs.choice([50.0, -30.0])), "cp"); top2.update(idx[1]); evals += 1
    try:
        top2.flatten(); top2.update(idx[1])
        if abs(float(top2["sub"]["fi"].position)) > 1e-9 or abs(float(top2["cp"].position)) > 1e-9 or abs(float(top2.notional_value)) > 1e-9:
            bad("flattening-a-fixed-income-tree-closes-every-position", fi=float(top2["sub"]["fi"].position), cp=float(top2["cp"].position), parent_notional=float(top2.notional_value))
    except Exception as e:
        bad("flattening-a-fixed-income-tree-closes-every-position", raised=repr(e)[:160])
    if it < 1: samples.append(dict(tables=int(which), final_price=float(s.price)))
print("JSON:" + json.dumps(dict(evaluations=evals, distinct=len(distinct), failures=fails[:5], samples=samples,
      rule="one fixed-income strategy holding all five security types, long and short, random coupon schedules, holding-cost tables supplied none/long/short(subset)/both; a notional schedule with a zero; the renormalised result recomputed date by date with initial capital 0 / non-zero and random capital flows",
      bound="%d runs of 8 dates" % N)))
