# bounded stand-in + audit of the pandas axioms for C14: EXHAUSTIVE over all rows of 3 tickers with values in {NaN,-1,0,1,2}
# (125 rows) x flag combinations, real selection algos against an executable reference of their contracts
import json, itertools, math, random
import numpy as np, pandas as pd
import bt
from bt import algos as A
fails, evals, distinct, samples = [], 0, set(), []
VALS = [np.nan, -1.0, 0.0, 1.0, 2.0]
names = ["b", "a", "c"]  # deliberately not sorted: order must be the universe's
idx = pd.date_range("2020-01-01", periods=4)
class Temp(dict):
    """target.temp: reading an entry the algo was supposed to leave, and did not, is a recorded failure (not a crash of this script)"""
    def __missing__(self, k):
        fails.append(dict(clause="algo-left-no-temp-entry", key=str(k)))
        return {} if k == "weights" else []
class T(object):
    """minimal target: what the selection algos read"""
    def __init__(self, data, now, temp=None, perm=None, extra=None, children=None):
        self._u, self.now, self.temp, self.perm, self._extra = data, now, Temp(temp or {}), dict(perm or {}), extra or {}
        self.children = children or {}
    @property
    def universe(self): return self._u.loc[: self.now]
    def get_data(self, k): return self._extra[k]
def ok_price(v, nd, neg): return nd or (not math.isnan(v) and (neg or v > 0))
def check(clause, got, want, info):
    global evals
    evals += 1
    if list(got) != list(want):
        fails.append(dict(clause=clause, got=[str(g) for g in got], want=[str(w) for w in want], **info))
for row in itertools.product(VALS, repeat=3):
    hist = np.array([[1.0, np.nan, 3.0], [np.nan, 1.0, 1.0], list(row), [9.0, 9.0, 9.0]])
    data = pd.DataFrame(hist, index=idx, columns=names)
    now = idx[2]
    r = dict(zip(names, row))
    distinct.add(tuple("n" if math.isnan(v) else v for v in row))
    for nd, neg in itertools.product([False, True], repeat=2):
        info = dict(row=[str(v) for v in row], include_no_data=nd, include_negative=neg)
        t = T(data, now); A.SelectAll(nd, neg)(t)
        check("SelectAll", t.temp["selected"], [n for n in names if ok_price(r[n], nd, neg)], info)
        tick = ["c", "b"]
        t = T(data, now); A.SelectThese(tick, nd, neg)(t)
        check("SelectThese", t.temp["selected"], [n for n in tick if ok_price(r[n], nd, neg)], info)
        # the same instance asked again on the next date (all three quoted at 9.0): the answer is that date's set, whatever was screened out before
        st_ = A.SelectThese(list(tick), nd, neg); st_(T(data, now)); t = T(data, idx[3]); st_(t)
        check("SelectThese", t.temp["selected"], tick, dict(info, second_date=True))
        # ... and SelectHasData keeps min_count as given, 0 included (no history needed: only today's price screen is left)
        t = T(data, now); A.SelectHasData(lookback=pd.DateOffset(days=1), min_count=0, include_no_data=nd, include_negative=neg)(t)
        check("SelectHasData", t.temp["selected"], [n for n in names if ok_price(r[n], nd, neg)], dict(info, min_count=0))
        for prior in (None, ["c", "a"]):
            for mc in (1, 2, 3):
                t = T(data, now, temp=({"selected": prior} if prior else {}))
                A.SelectHasData(lookback=pd.DateOffset(days=1), min_count=mc, include_no_data=nd, include_negative=neg)(t)
                base = prior or names
                win = data.loc[now - pd.DateOffset(days=1): now]
                want = [n for n in base if int(win[n].notna().sum()) >= mc and ok_price(r[n], nd, neg)]
                check("SelectHasData", t.temp["selected"], want, dict(info, prior=prior, min_count=mc))
        # on-the-run aliases: the resolved names pass the price screen of the flags, names that are no alias pass through as they are
        otr_ = pd.DataFrame([[names[0], names[1]]] * len(idx), index=idx, columns=["otr_a", "otr_b"])
        t = T(data, now, temp={"selected": ["otr_a", names[2], "otr_b"]}, extra={"otr": otr_}); A.ResolveOnTheRun("otr", nd, neg)(t)
        check("ResolveOnTheRun", t.temp["selected"], [n for n in names[:2] if ok_price(r[n], nd, neg)] + [names[2]], info)
        sig = pd.DataFrame([[True, False, True]], index=[now], columns=names)
        t = T(data, now, extra={"sig": sig}); A.SelectWhere("sig", nd, neg)(t)
        check("SelectWhere", t.temp["selected"], [n for n in names if bool(sig.loc[now, n]) and ok_price(r[n], nd, neg)], info)
        # a signal that is undefined (NaN) for a ticker - an indicator still warming up - selects nothing for it
        for srow in ([True, np.nan, False], [1.0, np.nan, 0.0], [np.nan, np.nan, True]):
            sig2 = pd.DataFrame([srow], index=[now], columns=names)
            t = T(data, now, extra={"sig": sig2}); A.SelectWhere("sig", nd, neg)(t)
            check("SelectWhere", t.temp["selected"], [n for n, v in zip(names, srow) if (v == True) and ok_price(r[n], nd, neg)], dict(info, signal=repr(srow)))   # noqa: E712
        random.seed(7)
        t = T(data, now, temp={"selected": ["a", "b", "c"]}); A.SelectRandomly(2, nd, neg)(t)
        pool = [n for n in ["a", "b", "c"] if ok_price(r[n], nd, neg)]
        evals += 1
        got = t.temp["selected"]
        if not (set(got) <= set(pool) and len(got) == min(2, len(pool)) and len(set(got)) == len(got)):
            fails.append(dict(clause="SelectRandomly", got=got, pool=pool, **info))
    # ranked selection on the row as statistic
    stat = pd.Series(row, index=names)
    for n, desc, aon, fs in itertools.product([1, 2, 0.5, 0.99, 3], [True, False], [False, True], [False, True]):
        t = T(data, now, temp={"stat": stat.copy(), "selected": ["c", "a"]}); A.SelectN(n, desc, aon, fs)(t)
        cand = [k for k in names if not math.isnan(r[k]) and (not fs or k in ["c", "a"])]
        keep = n if n >= 1 else int(n * len(cand))
        got = t.temp["selected"]
        evals += 1
        good = (len(got) == (0 if (aon and len(cand) < keep) else min(keep, len(cand)))) and set(got) <= set(cand) and all((r[g] >= r[d]) if desc else (r[g] <= r[d]) for g in got for d in cand if d not in got)
        good = good and all(((r[got[i]] >= r[got[i + 1]]) if desc else (r[got[i]] <= r[got[i + 1]])) for i in range(len(got) - 1))
        if not good: fails.append(dict(clause="SelectN", got=got, stat=[str(v) for v in row], n=n, sort_descending=desc, all_or_none=aon, filter_selected=fs))
# fixed small cases for the name/type/status filters and on-the-run resolution
t = T(None, None, temp={"selected": ["ab1", "ac2", "zz"]}); A.SelectRegex("^a")(t); check("SelectRegex", t.temp["selected"], ["ab1", "ac2"], {})
t = T(None, None, temp={"selected": ["a", "b", "c"]}, perm={"closed": {"a"}, "rolled": {"c"}}); A.SelectActive()(t); check("SelectActive", t.temp["selected"], ["b"], {})
t = T(None, None, temp={"selected": ["a", "b", "c"]}); A.SelectActive()(t); check("SelectActive/no-perm", t.temp["selected"], ["a", "b", "c"], {})
kids = {"s": bt.Security("s"), "f": bt.FixedIncomeSecurity("f"), "st": bt.Strategy("st")}
t = T(None, None, children=kids, temp={"selected": ["f", "st", "zz"]}); A.SelectTypes(include_types=(bt.core.SecurityBase,))(t); check("SelectTypes", t.temp["selected"], ["f"], {})
t = T(None, None, children=kids); A.SelectTypes(include_types=(bt.core.Node,), exclude_types=(bt.core.FixedIncomeSecurity,))(t); check("SelectTypes/exclude", t.temp["selected"], ["s", "st"], {})
t = T(None, None, children=kids, temp={"selected": []}); A.SelectTypes(include_types=(bt.core.Node,))(t); check("SelectTypes/empty-prior-selection-stays-empty", t.temp["selected"], [], {})
t = T(None, None, temp={"selected": []}); A.SelectRegex("^a")(t); check("SelectRegex/empty-prior", t.temp["selected"], [], {})
t = T(None, None, temp={"selected": []}, perm={"closed": {"a"}}); A.SelectActive()(t); check("SelectActive/empty-prior", t.temp["selected"], [], {})
data = pd.DataFrame([[1.0, 2.0, np.nan]], index=idx[:1], columns=["x1", "x2", "x3"])
otr = pd.DataFrame([["x2", "x3"]], index=idx[:1], columns=["otr_a", "otr_b"])
t = T(data, idx[0], temp={"selected": ["otr_a", "x1", "otr_b"]}, extra={"otr": otr}); A.ResolveOnTheRun("otr")(t); check("ResolveOnTheRun", t.temp["selected"], ["x2", "x1"], {})
# momentum: window [now-lag-lookback, now-lag]
px = pd.DataFrame({"a": [1.0, 2.0, 4.0, 8.0, 4.0], "b": [8.0, 4.0, 2.0, 1.0, 1.0], "c": [1.0, 1.0, 1.5, 1.5, 9.0]}, index=pd.date_range("2020-01-01", periods=5))
t = T(px, px.index[4], temp={"selected": ["a", "b", "c"]}); A.SelectMomentum(1, lookback=pd.DateOffset(days=2), lag=pd.DateOffset(days=1))(t)
check("SelectMomentum/window-and-lag", t.temp["selected"], ["a"], {})   # over [day2, day4-1]: a 2->8 (+300%), b 4->1, c 1->1.5
t = T(px, px.index[4], temp={"selected": ["a", "b", "c"]}); A.StatTotalReturn(lookback=pd.DateOffset(days=2), lag=pd.DateOffset(days=1))(t)
want = px.loc[px.index[1]:px.index[3]].iloc[-1] / px.loc[px.index[1]:px.index[3]].iloc[0] - 1
evals += 1
if not np.allclose(t.temp["stat"].values, want.values): fails.append(dict(clause="StatTotalReturn/window", got=list(map(float, t.temp["stat"].values)), want=list(map(float, want.values))))
samples.append(dict(rows_enumerated=125, flags=4, pandas=pd.__version__))
print("JSON:" + json.dumps(dict(evaluations=evals, distinct=len(distinct), failures=fails[:5], samples=samples, exhaustive_rows=True,
      rule="all 125 current-date rows of 3 tickers over {NaN,-1,0,1,2} x include_no_data x include_negative (x prior selection x min_count; x n x direction x all_or_none x filter_selected for SelectN); fixed cases for regex/types/active/on-the-run/momentum window",
      bound="3 tickers, 4 dates; value alphabet of 5")))
