# bounded stand-in for C13: random stacks of spy algos against the executable reference of the contract
import json, random, sys
import bt
from bt.core import Algo, AlgoStack, Strategy
from bt.algos import Or, Not, run_always
rnd = random.Random(SEED)
fails, evals, distinct, samples = [], 0, set(), []

class Spy(Algo):
    def __init__(self, log, tag, ret):
        super().__init__(); self.log, self.tag, self.ret = log, tag, ret
    def __call__(self, target):
        self.log.append(self.tag); return self.ret

ORDER = []  # module-level: children are deep-copied when attached, instance attributes would be copied too

class KidSpy(Algo):
    def __init__(self, tag):
        super().__init__(); self.tag = tag
    def __call__(self, target):
        ORDER.append(self.tag); return True

RETS = [True, False, 0, 1, None, "", "x"]
for it in range(N):
    n = rnd.randint(0, 7)
    log = []
    rets = [rnd.choice(RETS) for _ in range(n)]
    flags = [rnd.choice([None, None, True, False]) for _ in range(n)]
    algos = []
    for j in range(n):
        a = Spy(log, j, rets[j])
        if flags[j] is not None:
            a = run_always(a); a.run_always = flags[j]
        algos.append(a)
    st = AlgoStack(*algos)
    got = st(object())
    # reference: contract of AlgoStack.__call__
    any_ra = any(f is not None for f in flags)
    exp_log, failed = [], False
    for j in range(n):
        if not failed:
            exp_log.append(j)
            if not rets[j]:
                failed = True
                if not any_ra: break
        elif flags[j]:
            exp_log.append(j)
    evals += 1
    distinct.add((tuple(map(bool, rets)), tuple(flags)))
    if bool(got) != (not failed) or log != exp_log:
        fails.append(dict(clause="algostack", returns=[repr(r) for r in rets], run_always=flags, invoked=log, expected_invoked=exp_log, result=repr(got), expected_truthiness=(not failed)))
    if it < 2: samples.append(dict(returns=[repr(r) for r in rets], run_always=flags, invoked=log, result=repr(got)))
    # Or: every branch exactly once, in order; result is whether any succeeded
    log2 = []
    brs = [Spy(log2, j, rnd.choice([True, False])) for j in range(rnd.randint(0, 5))]
    r = Or(brs)(object())
    evals += 1
    if log2 != list(range(len(brs))) or bool(r) != any(b.ret for b in brs):
        fails.append(dict(clause="or", returns=[b.ret for b in brs], invoked=log2, result=repr(r)))
    # Strategy.run: temp cleared before own stack, perm kept, stack before children, each child once
    order = ORDER
    del ORDER[:]
    kids = [Strategy("k%d" % j, [KidSpy("k%d" % j)]) for j in range(rnd.randint(0, 3))]
    class Probe(Algo):
        def __call__(self, target):
            order.append(("parent", dict(target.temp), dict(target.perm))); target.temp["x"] = 1; target.perm["p"] = target.perm.get("p", 0) + 1
            return rnd.choice([True, False])
    s = Strategy("s", [Probe()], children=kids)
    runs = rnd.randint(1, 3)
    for _ in range(runs): s.run()
    evals += 1
    exp = []
    for t in range(runs):
        exp.append(("parent", {}, {"p": t} if t else {}))
        exp.extend("k%d" % j for j in range(len(kids)))
    if list(order) != exp:
        fails.append(dict(clause="strategy-run", observed=repr(order)[:400], expected=repr(exp)[:400]))
print("JSON:" + json.dumps(dict(evaluations=evals, distinct=len(distinct), failures=fails[:5], samples=samples,
      rule="random stacks (0-7 spy algos, returns drawn from True/False/0/1/None/''/'x', run_always unset/True/False), Or branch lists, Strategy.run with 0-3 child strategies and 1-3 runs; distinct = distinct (truthiness pattern, flag pattern) pairs",
      bound="%d random cases per clause family, stacks up to 7 algos" % N)))
