# bounded stand-in for C13: random stacks of spy algos against the executable reference of the contract
import json, random, sys
import bt
from bt.core import Algo, AlgoStack, Strategy
from bt.algos import Or, Not, run_always
rnd = random.Random(SEED)
fails, evals, distinct, samples = [], 0, set(), []

class Spy(Algo):
    def __init__(self, log, tag, ret):
        super().__init__(); self.log, self.tag, self.ret = log, tag, ret
    def __call__(self, target):
        self.log.append(self.tag); return self.ret

ORDER = []  # module-level: children are deep-copied when attached, instance attributes would be copied too

class KidSpy(Algo):
    def __init__(self, tag):
        super().__init__(); self.tag = tag
    def __call__(self, target):
        ORDER.append(self.tag); return True

RETS = [True, False, 0, 1, None, "", "x"]
for it in range(N):
    n = rnd.randint(0, 7)
    log = []
    rets = [rnd.choice(RETS) for _ in range(n)]
    flags = [rnd.choice([None, None, True, False]) for _ in range(n)]
    algos = []
    for j in range(n):
        a = Spy(log, j, rets[j])
        if flags[j] is not None:
            a = run_always(a); a.run_always = flags[j]
        algos.append(a)
    st = AlgoStack(*algos)
    got = st(object())
    # reference: contract of AlgoStack.__call__
    any_ra = any(f is not None for f in flags)
    exp_log, failed = [], False
    for j in range(n):
        if not failed:
            exp_log.append(j)
            if not rets[j]:
                failed = True
                if not any_ra: break
        elif flags[j]:
            exp_log.append(j)
    evals += 1
    distinct.add((tuple(map(bool, rets)), tuple(flags)))
    if bool(got) != (not failed) or log != exp_log:
        fails.append(dict(clause="algostack", returns=[repr(r) for r in rets], run_always=flags, invoked=log, expected_invoked=exp_log, result=repr(got), expected_truthiness=(not failed)))
    if it < 2: samples.append(dict(returns=[repr(r) for r in rets], run_always=flags, invoked=log, result=repr(got)))
    # Or: every branch exactly once, in order; result is whether any succeeded
    log2 = []
    brs = [Spy(log2, j, rnd.choice([True, False])) for j in range(rnd.randint(0, 5))]
    r = Or(brs)(object())
    evals += 1
    if log2 != list(range(len(brs))) or bool(r) != any(b.ret for b in brs):
        fails.append(dict(clause="or", returns=[b.ret for b in brs], invoked=log2, result=repr(r)))
    # Strategy.run: temp cleared before own stack, perm kept, stack before children, each child once
    order = ORDER
    del ORDER[:]
    kids = [Strategy("k%d" % j, [KidSpy("k%d" % j)]) for j in range(rnd.randint(0, 3))]
    class Probe(Algo):
        def __call__(self, target):
            order.append(("parent", dict(target.temp), dict(target.perm))); target.temp["x"] = 1; target.perm["p"] = target.perm.get("p", 0) + 1
            return rnd.choice([True, False])
    s = Strategy("s", [Probe()], children=kids)
    runs = rnd.randint(1, 3)
    for _ in range(runs): s.run()
    evals += 1
    exp = []
    for t in range(runs):
        exp.append(("parent", {}, {"p": t} if t else {}))
        exp.extend("k%d" % j for j in range(len(kids)))
    if list(order) != exp:
        fails.append(dict(clause="strategy-run", observed=repr(order)[:400], expected=repr(exp)[:400]))
# ---- an algo that keeps the temp dict of each pass (perm["history"].append(target.temp)): a later run starts from a NEW empty temp, the kept ones stay as they were
class Keeper(Algo):
    def __call__(self, target):
        target.temp["pass"] = len(target.perm.setdefault("history", [])); target.perm["history"].append(target.temp); return True
sk = Strategy("keeper", [Keeper()])
for _ in range(3): sk.run()
evals += 1
if [d_.get("pass") for d_ in sk.perm["history"]] != [0, 1, 2] or len({id(d_) for d_ in sk.perm["history"]}) != 3:
    fails.append(dict(clause="temp-of-an-earlier-run-is-left-alone", history=[dict(d_) for d_ in sk.perm["history"]]))
# ---- three levels of strategies: one run of the root runs every strategy of the tree exactly once, parents before children
for it in range(max(5, N // 40)):
    del ORDER[:]
    leaves = [Strategy("l%d" % j, [KidSpy("l%d" % j)]) for j in range(rnd.randint(1, 3))]
    mid = Strategy("mid", [KidSpy("mid")], children=leaves)
    side = Strategy("side", [KidSpy("side")])
    root3 = Strategy("root", [KidSpy("root")], children=[mid, side])
    root3.run(); evals += 1
    want3 = ["root", "mid"] + ["l%d" % j for j in range(len(leaves))] + ["side"]
    if list(ORDER) != want3: fails.append(dict(clause="strategy-run-three-levels-each-node-once", observed=list(ORDER), expected=want3))
# ---- nested stacks and Or branches: a nested stack is one algo of the enclosing stack (recursive reference semantics)
def gen(depth, with_or):
    """random algo tree: ('spy', tag, ret, flag) | ('stack', [children]) | ('or', [children]); Or combines results with `|`, so trees that
    contain an Or use boolean returns only (algos are documented to return booleans; stacks alone tolerate any truthiness)"""
    r = rnd.random()
    if depth >= 2 or r < 0.55:
        return ("spy", None, rnd.choice([True, False] if with_or else RETS), rnd.choice([None, None, True, False]))
    return ("stack" if (r < 0.85 or not with_or) else "or", [gen(depth + 1, with_or) for _ in range(rnd.randint(0, 4))])
def build_tree(node, log, counter):
    if node[0] == "spy":
        tag = counter[0]; counter[0] += 1
        a = Spy(log, tag, node[2])
        if node[3] is not None:
            a = run_always(a); a.run_always = node[3]
        return a, ("spy", tag, node[2], node[3])
    kids = [build_tree(k, log, counter) for k in node[1]]
    objs = [k[0] for k in kids]
    return (AlgoStack(*objs) if node[0] == "stack" else Or(objs)), (node[0], [k[1] for k in kids])
def ref_run(node, log):
    """documented semantics; returns truthiness"""
    if node[0] == "spy":
        log.append(node[1]); return bool(node[2])
    if node[0] == "or":
        res = False
        for k in node[1]:
            if ref_run(k, log): res = True
        return res
    marked = lambda k: k[0] == "spy" and k[3] is not None      # only decorated algos carry the attribute; a nested stack or Or does not
    any_ra = any(marked(k) for k in node[1])
    ok = True
    for k in node[1]:
        if ok:
            if not ref_run(k, log):
                ok = False
                if not any_ra: break
        elif marked(k) and k[3]:
            ref_run(k, log)
    return ok
for it in range(max(30, N // 5)):
    with_or = rnd.random() < 0.5
    tree = ("stack", [gen(0, with_or) for _ in range(rnd.randint(1, 5))])
    log, counter = [], [0]
    obj, tagged = build_tree(tree, log, counter)
    got = obj(object()); evals += 1
    exp_log = []
    want = ref_run(tagged, exp_log)
    if bool(got) != want or log != exp_log:
        fails.append(dict(clause="nested-stacks", tree=repr(tagged)[:300], invoked=log, expected_invoked=exp_log, result=repr(got), expected=want))
# ---- Require: predicate on a temp entry, default when absent or None
from bt.algos import Require, RunIfOutOfBounds
class T0(object):
    def __init__(self, temp): self.temp = temp
for it in range(max(20, N // 10)):
    ifn = rnd.choice([True, False]); state = rnd.choice(["absent", "none", "present"]); ret = rnd.choice(RETS)
    calls = []
    pred = lambda x: (calls.append(x), ret)[1]
    present_val = rnd.choice([["x"], [], 0, "", 1.5])     # present entries may be falsy: the predicate still decides
    temp = {} if state == "absent" else {"item": None if state == "none" else present_val}
    got = Require(pred, "item", if_none=ifn)(T0(temp)); evals += 1
    want = ret if state == "present" else ifn
    if got is not want and got != want or (len(calls) != (1 if state == "present" else 0)): fails.append(dict(clause="Require", state=state, if_none=ifn, ret=repr(ret), got=repr(got), calls=len(calls)))
# ---- RunIfOutOfBounds on real trees: True exactly when a held target deviates by more than the tolerance (relative)
import numpy as np, pandas as pd
rs = np.random.RandomState(SEED)
for it in range(max(20, N // 10)):
    k = int(rs.randint(2, 5)); names = ["c%d" % j for j in range(k)]
    idx = pd.date_range("2020-01-01", periods=3)
    data = pd.DataFrame(100.0 + rs.rand(3, k), index=idx, columns=names)
    s = Strategy("s", [], children=names)
    s.setup(data); s.adjust(1e6); s.update(idx[0])
    w = rs.dirichlet(np.ones(k)) * 0.9
    for n_, w_ in zip(names, w): s.rebalance(float(w_), n_, update=False)
    s.update(idx[0])
    tol = float(rs.choice([0.05, 0.2, 0.5]))
    tgt = {n_: float(s[n_].weight * (1 + rs.choice([-1, 1]) * rs.uniform(0, min(2 * tol, 0.9)))) for n_ in names if rs.rand() < 0.8 and abs(s[n_].weight) > 1e-9}   # a zero target has no relative deviation (precondition of the contract)
    s.temp["weights"] = dict(tgt)
    got = RunIfOutOfBounds(tol)(s); evals += 1
    want = any(abs((s[n_].weight - t) / t) > tol for n_, t in tgt.items())
    if bool(got) != want: fails.append(dict(clause="RunIfOutOfBounds", tolerance=tol, got=bool(got), want=want, deviations=[float(abs((s[n_].weight - t) / t)) for n_, t in tgt.items()]))
    s.temp.pop("weights"); evals += 1
    if RunIfOutOfBounds(tol)(s) is not True: fails.append(dict(clause="RunIfOutOfBounds/no-weights-is-True"))
print("JSON:" + json.dumps(dict(evaluations=evals, distinct=len(distinct), failures=fails[:5], samples=samples,
      rule="random stacks (0-7 spy algos, returns drawn from True/False/0/1/None/''/'x', run_always unset/True/False), Or branch lists, nested trees of stacks / Or / decorated algos (depth <= 3) against the recursive reference; Strategy.run with 0-3 child strategies and 1-3 runs; Require over absent/None/present entries; RunIfOutOfBounds on real trees against the recomputed relative deviations; distinct = distinct (truthiness pattern, flag pattern) pairs",
      bound="%d random cases per clause family, stacks up to 7 algos" % N)))
