"""C19 - Tree wiring and universe scoping are consistent; lazy children are transparent"""
from pyvc.runner import func

UPDATE_ALL = [func("bt.core.StrategyBase.update", variant=v) for v in ("flat", "paper", "nested", "nested-paper")]
ID = "C19"
META = {
    "assumptions": ["A-REAL", "A-T", "A-IND", "A-DEEPCOPY", "A-PANDAS", "A-SOLVER", "A-ENGINE"],
    "explanation": "Settings pushed from the top: the real bodies of Node._set_root, Node.use_integer_positions and StrategyBase.set_commissions are proved to set the field on the receiver, to make exactly one "
    "recursive call with the same argument on every child (every strategy child for commissions), to leave every child with the setting (using the callee's contract on its subtree) and to write nothing else; "
    "reach to all descendants is the induction over the tree (A-IND). Backtest installs both settings on its own copy before setup and its verified call trace never changes them afterwards (so shadow copies, "
    "deep-copied in setup, carry them). Lazy children: the real body of _create_child_if_needed is proved to do nothing at all when the name is already a child, and otherwise to take the lazily registered "
    "security (a default Security(name) when none), switch lazy_add off, attach it through _add_children([c], dc=False), set it up with the strategy's own universe and setup kwargs and bring it to the "
    "strategy's date with update(self.now) - in this order and nothing else. Universe scoping: StrategyBase.setup is executed symbolically over a column-set model (its history-frame construction abstracted) and "
    "the stored universe is proved to have exactly the declared tickers that are data columns, in data-column order, followed by one column per strategy child in registration order - or all data columns when "
    "no children were declared; children are set up on the unfiltered universe. StrategyBase.update is proved (C09 clause) to publish every strategy child's index in its column at the current row. "
    "Node.__init__ / _add_children (list, dict, string, parent= forms; duplicate refusal; members / full_name) and the observable equivalence of lazy and eager runs are covered only by the bounded stand-in "
    "c19_tree on the real code.",
}
MANIFEST_ENTRY = {
    "level_text": "Deductive proof for the three propagation functions, lazy-child creation, the universe column set/order built by setup and the per-row publication of child indices, for all trees and inputs; "
    "the dict form of _add_children, Node.__init__ and lazy==eager histories are a bounded stand-in on generated trees, labelled bounded.",
    "level_note": "_add_children is used through a log-only call-site contract inside the lazy-child proof (its body is verified per element, separately); the column-set model of setup assumes pandas column selection frame[list] / frame[c]=v / .copy() / DataFrame(frame) "
    "keep or append columns as modelled (A-PANDAS); setup_from_parent (dynamic sub-strategies) is not under contract; reach to all descendants is by induction over the tree (A-IND), not mechanised.",
    "technique": "contract-based deductive verification (pyvc VCs + z3; loop specs with per-iteration call-trace clauses; column-set model for setup); bounded real-code stand-in for construction forms",
}


def tasks(tier, seed):
    return [
        func("bt.core.Node._set_root"), func("bt.core.Node.use_integer_positions"), func("bt.core.StrategyBase.set_commissions"),
        func("bt.core.StrategyBase._create_child_if_needed"),
        func("bt.core.StrategyBase.close"),      # a declared, not yet created child is closed like an eager flat one: no-op (after F21)
        func("bt.core.Node._add_children", variant="str"), func("bt.core.Node._add_children", variant="nodes"), func("bt.core.Node._add_children", variant="nodes-dc"),
        func("bt.backtest.Backtest.run"),
        dict(kind="custom", module="props.misc_tasks", fn="c09_constants"), dict(kind="custom", module="props.misc_tasks", fn="backtest_init_task"),
        dict(kind="custom", module="props.c19_tasks", fn="universe_scope_task"),
        dict(kind="custom", module="props.misc_tasks", fn="c11_static"),        # of it: setup_from_parent works on a copy of the parent's setup arguments
        dict(kind="custom", module="props.c04_tasks", fn="setup_clauses"),
        *UPDATE_ALL,
        dict(kind="custom", module="props.bounded", fn="run_script", script="c19_tree", seed=seed, n=40 if tier == "quick" else 600, props=["C19"]),
    ]


def post(results, tier, seed):
    b = [r["bounded"] for r in results if r.get("bounded")]
    return None, dict(bounded_stand_ins=b, bounded_note="real runs on the interpreted scratch copy; never counted in obligations/discharged")


def replay(o):
    if o.get("replay_inline"):
        return o["replay_inline"]
    from pyvc.concrete import replay_scenario

    return replay_scenario(o)
