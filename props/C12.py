"""C12 - Calendar and counting schedulers fire exactly on their boundaries."""
from pyvc.runner import func

ID = "C12"
META = {
    "assumptions": ["A-TIME", "A-T", "A-SOLVER", "A-ENGINE"],
    "explanation": "RunPeriod.__call__ proved equal to the position formula (pre-start row, unknown date, first/last flags, neighbour to compare); each compare_dates proved to be "
    "a key inequality over calendar accessors with the key extracted from the body, and that key confronted with an independent stdlib calendar key on EVERY day of pandas' "
    "Timestamp range (complete enumeration) plus intraday stamps; counting schedulers under functional specs plus induction lemmas over the call count; the constructors of the date / counting schedulers proved (AST obligation) to keep their parameters as given (pd.to_datetime of the argument, nothing that rounds or shifts it).",
}
MANIFEST_ENTRY = {
    "level_text": "Deductive proof of the position logic and of the counting/date schedulers for all indices, flags and parameters (linear integer arithmetic, no bound); "
    "calendar comparators decided by AST-derived key extraction (proved) plus exhaustive enumeration of the finite date domain, which is complete rather than sampled.",
    "level_note": "Dates are integers (A-TIME); index labels strictly increasing; pandas calendar accessors are not assumed but enumerated on all 213k representable days; "
    "intraday stamps are audited on a sample of days only.",
    "technique": "contract-based deductive verification (pyvc VCs + z3) + exhaustive finite-domain partition check for calendar keys",
}


def _tasks_core(tier, seed):
    ts = [
        func("bt.algos.RunPeriod.__call__"),
        func("bt.algos.RunOnce.__call__"),
        func("bt.algos.RunAfterDays.__call__"),
        func("bt.algos.RunEveryNPeriods.__call__"),
        func("bt.algos.RunAfterDate.__call__"),
        func("bt.algos.RunOnDate.__call__"),
        dict(kind="custom", module="props.c12_tasks", fn="counting_lemmas"),
        dict(kind="custom", module="props.c12_tasks", fn="constructor_task"),
    ]
    for cls in ("RunDaily", "RunWeekly", "RunMonthly", "RunQuarterly", "RunYearly"):
        ts.append(dict(kind="custom", module="props.c12_tasks", fn="comparator_task", cls=cls))
    ts.append(dict(kind="custom", module="props.bounded", fn="run_script", script="c12_schedulers", seed=seed, n=25 if tier == "quick" else 600, props=["C12"]))
    return ts


def post(results, tier, seed):
    ex = [r.get("exhaustive") for r in results if r.get("exhaustive")]
    b = [r["bounded"] for r in results if r.get("bounded")]
    return dict(exhaustive=True, exhaustive_domains=ex, evaluations=sum(e["days"] + e["intraday_stamps"] for e in ex)), dict(bounded_stand_ins=b, bounded_note="every scheduler in front of a recording algo through the real Backtest over random date indices (constructors, one- and two-row data, intraday stamps); never counted in obligations/discharged")


REPLAY_TMPL = '''
import json, datetime, pandas as pd
import bt.algos as A
from props.c12_tasks import spec_key
a, b = pd.Timestamp(%(a)r), pd.Timestamp(%(b)r)
got = bool(getattr(A, %(cls)r)().compare_dates(a, b))
want = spec_key(%(period)r, a.date()) != spec_key(%(period)r, b.date())
print("JSON:" + json.dumps(dict(reproduced=(got != want), comparator=%(cls)r, now=str(a), compared_with=str(b), returned=got, calendar_says_new_period=want, module=A.__file__)))
'''


def replay(o):
    from pyvc.replay import Scratch

    m = o.get("model") or {}
    if "date_a" not in m:
        return None
    cls = o["id"].split(".")[0]
    script = REPLAY_TMPL % dict(a=m["date_a"], b=m["date_b"], cls=cls, period=m["period"])
    with Scratch() as sc:
        d = sc.run_json(script)
    d["replay_script"] = script
    return d


# functions under contract elsewhere whose obligations carry this property's tag as well (found by tools/tagaudit.py): run here too, so that a change
# which breaks one of them is reported by this check and not only by a neighbour
def tasks(tier, seed):
    return _tasks_core(tier, seed) + [
        func("bt.backtest.Backtest.run"),
    ]
